"""C09 — collection queries: the selection loop of AnnotationCollection._query_by_position returns exactly the children
whose span lies within / overlaps the range after the coding filter, regardless of the bin shortcut; range validation;
children ordered by start.  Real constructors; two genes + one feature collection with symbolic coordinates."""
from pyvc.spec import *  # noqa
from pyvc.sources import NS
from .common import *  # noqa
from .gene_common import *  # noqa
from .lib import LIB  # noqa

AC = "gene.collections.AnnotationCollection"
GENE = "gene.gene.GeneInterval"
FCOL = "gene.feature.FeatureIntervalCollection"


def small_collection(S, kinds=("coding", "noncoding", "feature"), chunk=None):
    """genes (coding / non-coding) and feature collections: one single-exon child each.
    chunk: a sequence-chunk parent every object (children and collection) is built on."""
    strand = strand_of(S, "strand")
    X = {} if chunk is None else dict(parent_or_seq_chunk_parent=chunk)
    zero = S.enum_const(FRAME, "ZERO")
    info = []
    kids = []
    for j, kind in enumerate(kinds):
        s, e = S.int(f"s{j}"), S.int(f"e{j}")
        S.assume(And(0 <= s, s < e))
        if kind == "feature":
            f = S.new(FEATURE, [s], [e], strand, feature_id=f"f{j}", **X)
            kids.append(S.new(FCOL, [f], feature_collection_id="fc", **X))
        elif kind == "split":
            # a gene whose two isoforms lie apart (possibly in different bins, none spanning the gene): the gene's
            # span [s, e) includes the stretch between them, which no isoform covers
            m1, m2 = S.int(f"m1_{j}"), S.int(f"m2_{j}")
            S.assume(And(s < m1, m1 <= m2, m2 < e))
            t1 = S.new(TRANSCRIPT, [s], [m1], strand, transcript_id=f"tx{j}a", **X)
            t2 = S.new(TRANSCRIPT, [m2], [e], strand, transcript_id=f"tx{j}b", **X)
            kids.append(S.new(GENE, [t1, t2], gene_id=f"g{j}", **X))
        elif kind == "mixed":
            # a gene with a non-coding isoform (possibly flagged primary) next to a coding one: the gene is coding
            nc = S.new(TRANSCRIPT, [s], [e], strand, transcript_id=f"tx{j}n", is_primary_tx=S.bool(f"primary{j}"), **X)
            cd = S.new(TRANSCRIPT, [s], [e], strand, transcript_id=f"tx{j}c", cds_starts=[s], cds_ends=[e],
                       cds_frames=[zero], **X)
            kids.append(S.new(GENE, [nc, cd], gene_id=f"g{j}", **X))
        else:
            kw = dict(transcript_id=f"tx{j}")
            if kind == "coding":
                kw.update(cds_starts=[s], cds_ends=[e], cds_frames=[zero])
            tx = S.new(TRANSCRIPT, [s], [e], strand, **kw, **X)
            kids.append(S.new(GENE, [tx], gene_id=f"g{j}", **X))
        info.append(NS(s=s, e=e, coding=(kind in ("coding", "mixed")), kind=kind))
    genes = [k for k, kd in zip(kids, kinds) if kd != "feature"]
    fcs = [k for k, kd in zip(kids, kinds) if kd == "feature"]
    col = S.new(AC, genes=genes, feature_collections=fcs, **X)
    return col, kids, info


def sample_collection(rng, n=3):
    d = dict(strand=rng.choice(["PLUS", "MINUS"]))
    for j in range(n):
        s = rng.choice([0, 1, 3, 6, 131070, 131072])
        d[f"s{j}"], d[f"e{j}"] = s, s + rng.choice([1, 2, 4, 131073])
        d[f"primary{j}"] = rng.random() < 0.5
        ln = d[f"e{j}"] - s
        d[f"m1_{j}"] = s + max(1, ln // 3)
        d[f"m2_{j}"] = max(d[f"m1_{j}"], d[f"e{j}"] - max(1, ln // 3))
        if not (s < d[f"m1_{j}"] <= d[f"m2_{j}"] < d[f"e{j}"]):
            d[f"e{j}"] = s + 3
            d[f"m1_{j}"], d[f"m2_{j}"] = s + 1, s + 2
    return d


def selected(i, c):
    """child c belongs to the answer of the position query (statement)."""
    P = And(i.start <= c.s, c.e <= i.end) if i.cw else And(Max(i.start, c.s) < Min(i.end, c.e))
    return And(Or(Not(i.coding_only), c.coding), P)


class QueryByPosition(Case):
    props = ("C09", "C16")
    func = AC + "._query_by_position"

    def __init__(self, cw, kinds):
        self.cw, self.kinds = cw, kinds
        self.tier = "thorough" if len(kinds) >= 3 else "quick"
        self.shard_depth = 4
        self.name = f"AnnotationCollection._query_by_position[completely_within={cw}, children={','.join(kinds)}]"
        self.call = f"col._query_by_position(start, end, {cw}, coding_only)"
        gi = [j for j, k in enumerate(kinds) if k != "feature"]
        fi = [j for j, k in enumerate(kinds) if k == "feature"]
        self.ensures = {
            "exactly-the-specified-genes": lambda i, r: And(*[
                Iff(_has(r[0], i.kids[j]), selected(i, i.info[j])) for j in gi]),
            "exactly-the-specified-feature-collections": lambda i, r: And(*[
                Iff(_has(r[1], i.kids[j]), selected(i, i.info[j])) for j in fi]),
            "no-variants-no-strangers": lambda i, r: And(
                len(r[2]) == 0, all(any(x is i.kids[j] for j in gi) for x in r[0]),
                all(any(x is i.kids[j] for j in fi) for x in r[1])),
        }

    def inputs(self, S):
        col, kids, info = small_collection(S, self.kinds)
        start, end = S.int("start"), S.int("end")
        S.assume(And(0 <= start, start < end))
        return NS(col=col, kids=kids, info=info, start=start, end=end, cw=self.cw, coding_only=S.bool("coding_only"))

    def samples(self, rng):
        d = sample_collection(rng, len(self.kinds))
        st = rng.choice([0, 1, 2, 131071])
        d.update(start=st, end=st + rng.choice([1, 3, 8, 131075, 300000]), coding_only=rng.random() < 0.4)
        return d

    def observe(self, r):
        return [[g.gene_id for g in r[0]], [c.feature_collection_id for c in r[1]], len(r[2])]


def _has(lst, obj):
    return any(x is obj for x in lst)


class QueryValidation(Case):
    """ranges outside the collection (or empty / inverted / negative) are rejected before anything is selected."""
    props = ("C09", "C19")
    name = "AnnotationCollection.query_by_position[range validation]"
    func = AC + ".query_by_position"
    call = "col.query_by_position(start, end)"
    raises = {"InvalidQueryError": lambda i: True}
    allow_uncovered = ("return",)

    def inputs(self, S):
        col, kids, info = small_collection(S, ("coding", "feature"))
        start, end = S.int("start"), S.int("end")
        lo = Min(info[0].s, info[1].s)
        hi = Max(info[0].e, info[1].e)
        # exactly the invalid requests
        S.assume(Or(start < 0, start > end, start < lo, end > hi, start == end))
        return NS(col=col, start=start, end=end)

    def samples(self, rng):
        d = sample_collection(rng, 2)
        d.update(start=rng.randint(-2, 5), end=rng.randint(-2, 9))
        return d


class ChildrenOrder(Case):
    props = ("C20", "C09")
    name = "AnnotationCollection children sorted by start; len; bounds inferred from children"
    func = AC + ".children"
    call = "([c.start for c in col.children], len(col), col.is_empty, col.start, col.end, [c.start for c in col.iter_children()])"
    ensures = {
        "sorted-by-start": lambda i, r: And(r[0][0] <= r[0][1], r[0][1] <= r[0][2]),
        "permutation-of-members": lambda i, r: And(*[Or(*[r[0][a] == c.s for c in i.info]) for a in range(3)]),
        "len-and-empty": lambda i, r: And(r[1] == 3, r[2] is False),
        "bounds": lambda i, r: And(r[3] == Min(Min(i.info[0].s, i.info[1].s), i.info[2].s),
                                   r[4] == Max(Max(i.info[0].e, i.info[1].e), i.info[2].e)),
        "iteration-is-children": lambda i, r: And(*[a == b for a, b in zip(r[0], r[5])]),
    }

    def inputs(self, S):
        col, kids, info = small_collection(S)
        return NS(col=col, info=info)

    def samples(self, rng):
        return sample_collection(rng)


class QueryExpand(Case):
    """query_by_position(start, end, completely_within=False, expand_location_to_children=True) end to end on a
    collection holding a gene AND a feature collection (parentless, bounds inferred): the result keeps exactly the
    members that share a position with the range, and its bounds are the range widened to the hull of EVERY kept
    member - min over all their starts, max over all their ends, whatever order they are visited in (feature
    collections before genes)."""
    props = ("C09", "C20")
    name = "AnnotationCollection.query_by_position[relaxed, expand_location_to_children: bounds = hull of range and kept members]"
    func = AC + ".query_by_position"
    module = "gene.collections"
    shard_depth = 5
    call = ("(lambda r: (r.start, r.end, [g.gene_id for g in r.genes], [c.feature_collection_id for c in r.feature_collections]))"
            "(col.query_by_position(qs, qe, completely_within=False, expand_location_to_children=True))")
    raises = {"InvalidQueryError": lambda i: Or(i.qs >= i.qe, i.qs < Min(i.info[0].s, i.info[1].s),
                                                i.qe > Max(i.info[0].e, i.info[1].e))}
    ensures = {
        "bounds-are-the-hull-of-range-and-kept-members": lambda i, r: And(
            r[0] == Min(i.qs, Min(If(_hit(i, 0), i.info[0].s, i.qs), If(_hit(i, 1), i.info[1].s, i.qs))),
            r[1] == Max(i.qe, Max(If(_hit(i, 0), i.info[0].e, i.qe), If(_hit(i, 1), i.info[1].e, i.qe)))),
        # the member lists have a concrete length on every path: the path condition must decide the overlap test
        "gene-kept-iff-it-shares-a-position-with-the-range": lambda i, r: And(
            len(r[2]) <= 1, _hit(i, 0) if len(r[2]) == 1 else Not(_hit(i, 0)), list(r[2]) in ([], ["g0"])),
        "feature-collection-kept-iff-it-shares-a-position-with-the-range": lambda i, r: And(
            len(r[3]) <= 1, _hit(i, 1) if len(r[3]) == 1 else Not(_hit(i, 1)), list(r[3]) in ([], ["fc"])),
    }

    def inputs(self, S):
        col, kids, info = small_collection(S, ("coding", "feature"))
        qs, qe = S.int("qs"), S.int("qe")
        S.assume(0 <= qs)
        return NS(col=col, kids=kids, info=info, qs=qs, qe=qe)

    def samples(self, rng):
        d = sample_collection(rng, 2)
        for j in range(2):
            d[f"s{j}"] = rng.randint(0, 10)
            d[f"e{j}"] = d[f"s{j}"] + rng.randint(1, 6)
        lo, hi = min(d["s0"], d["s1"]), max(d["e0"], d["e1"])
        d["qs"] = rng.randint(max(0, lo - 1), hi)
        d["qe"] = rng.randint(d["qs"], hi + 1)
        return d


def _sbin(a, b):
    from .c16_bins import spec_bin
    return spec_bin(a, b, 0)


def _hit(i, j):
    return Max(i.info[j].s, i.qs) < Min(i.info[j].e, i.qe)


class QueryStrictEndToEnd(QueryExpand):
    """query_by_position(start, end, completely_within=True) end to end: exactly the members lying wholly inside the
    range are kept, and the result's bounds are the queried range itself."""
    name = "AnnotationCollection.query_by_position[strict, end to end: members wholly inside, bounds = the range]"
    call = ("(lambda r: (r.start, r.end, [g.gene_id for g in r.genes], [c.feature_collection_id for c in r.feature_collections]))"
            "(col.query_by_position(qs, qe, completely_within=True))")
    ensures = {
        "bounds-are-the-queried-range": lambda i, r: And(r[0] == i.qs, r[1] == i.qe),
        "gene-kept-iff-wholly-inside": lambda i, r: And(
            len(r[2]) <= 1, _inside(i, 0) if len(r[2]) == 1 else Not(_inside(i, 0)), list(r[2]) in ([], ["g0"])),
        "feature-collection-kept-iff-wholly-inside": lambda i, r: And(
            len(r[3]) <= 1, _inside(i, 1) if len(r[3]) == 1 else Not(_inside(i, 1)), list(r[3]) in ([], ["fc"])),
    }


def _inside(i, j):
    return And(i.qs <= i.info[j].s, i.info[j].e <= i.qe)


class IdentifierQueries(Case):
    """identifier / interval-GUID queries on a collection whose members SHARE an identifier (gene g0 and feature
    collection fc both carry locus tag LT1; gene g2 carries LT2): query_by_feature_identifiers returns EVERY member
    holding a requested identifier; query_by_transcript_interval_guids selects by transcript GUIDs only - a feature
    interval's GUID selects nothing (an empty collection, not an error); query_by_feature_interval_guids likewise."""
    props = ("C09", "C19")
    name = "AnnotationCollection identifier / interval-GUID queries[members sharing an identifier]"
    func = AC + ".query_by_feature_identifiers"
    module = "gene.collections"
    shard_depth = 4
    call = ("(lambda m: (m(col.query_by_feature_identifiers('LT1')), m(col.query_by_feature_identifiers(['LT1', 'LT2'])), "
            "m(col.query_by_feature_identifiers(['LT2', 'nope'])), m(col.query_by_feature_identifiers('nope')), "
            "m(col.query_by_transcript_interval_guids(feat.guid)), m(col.query_by_transcript_interval_guids([tx.guid, feat.guid])), "
            "m(col.query_by_feature_interval_guids(tx.guid)), m(col.query_by_feature_interval_guids([feat.guid]))))"
            "(lambda r: (sorted(g.gene_id for g in r.genes), [c.feature_collection_id for c in r.feature_collections]))")
    ensures = {
        "every-member-holding-a-requested-identifier": lambda i, r: (
            _mm(r[0]) == (["g0"], ["fc"]) and _mm(r[1]) == (["g0", "g2"], ["fc"]) and _mm(r[2]) == (["g2"], [])
            and _mm(r[3]) == ([], [])),
        "interval-guid-queries-select-by-their-own-kind-only": lambda i, r: (
            _mm(r[4]) == ([], []) and _mm(r[5]) == (["g0"], []) and _mm(r[6]) == ([], []) and _mm(r[7]) == ([], ["fc"])),
    }

    def inputs(self, S):
        strand = strand_of(S, "strand")
        ss = [S.int(f"s{j}") for j in range(3)]
        es = [S.int(f"e{j}") for j in range(3)]
        for s_, e_ in zip(ss, es):
            S.assume(And(0 <= s_, s_ < e_))
        # distinct content => distinct GUIDs (GUIDs are digests of the content)
        S.assume(And(ss[0] != ss[1], ss[0] != ss[2], ss[1] != ss[2]))
        tx = S.new(TRANSCRIPT, [ss[0]], [es[0]], strand, transcript_id="tx0")
        g0 = S.new(GENE, [tx], gene_id="g0", locus_tag="LT1")
        feat = S.new(FEATURE, [ss[1]], [es[1]], strand, feature_id="f1")
        fc = S.new(FCOL, [feat], feature_collection_id="fc", locus_tag="LT1")
        tx2 = S.new(TRANSCRIPT, [ss[2]], [es[2]], strand, transcript_id="tx2")
        g2 = S.new(GENE, [tx2], gene_id="g2", locus_tag="LT2")
        col = S.new(AC, genes=[g0, g2], feature_collections=[fc])
        return NS(col=col, tx=tx, feat=feat)

    def samples(self, rng):
        d = dict(strand=rng.choice(["PLUS", "MINUS"]))
        starts = rng.sample(range(0, 20), 3)
        for j in range(3):
            d[f"s{j}"], d[f"e{j}"] = starts[j], starts[j] + rng.randint(1, 6)
        return d

    def observe(self, r):
        return [[list(a), list(b)] for a, b in r]


def _mm(x):
    return (list(x[0]), list(x[1]))


class ChildrenOrderOnChunk(Case):
    """children / iteration order of a collection whose members (and the collection itself) are built on a sequence
    chunk of either strand with ANY window (cutting members, missing them, reverse strand): ordered by CHROMOSOME
    start - the chunk changes neither the order nor the bounds."""
    props = ("C20", "C09", "C07", "C16")
    name = "AnnotationCollection children sorted by chromosome start[gene + feature collection on a chunk of either strand, any window]"
    func = AC + ".children"
    module = "gene.collections"
    shard_depth = 5
    call = ("([c.start for c in col.children], len(col), col.start, col.end, [c.start for c in col.iter_children()], "
            "col.bin, [c.bin for c in col.children])")
    ensures = {
        # stored bins are bins of CHROMOSOME spans (the collection's: its bounds; the members': their own spans)
        "stored-bins-are-bins-of-chromosome-spans": lambda i, r: And(
            r[5] == _sbin(i.cs, i.ce),
            *[Or(*[And(r[0][a] == c.s, r[6][a] == _sbin(c.s, c.e)) for c in i.info]) for a in range(2)]),
        "sorted-by-chromosome-start": lambda i, r: r[0][0] <= r[0][1],
        "permutation-of-members": lambda i, r: And(*[Or(*[r[0][a] == c.s for c in i.info]) for a in range(2)],
                                                   Or(r[0][0] != r[0][1], i.info[0].s == i.info[1].s)),
        # documented: a collection built on a sequence chunk without explicit bounds takes the chunk's window
        "len-and-bounds-are-the-chunk-window": lambda i, r: And(r[1] == 2, r[2] == i.cs, r[3] == i.ce),
        "iteration-is-children": lambda i, r: And(*[a == b for a, b in zip(r[0], r[4])]),
    }

    def inputs(self, S):
        from .c04_liftover import chunk_parent_stranded
        cp, cs, ce, minus = chunk_parent_stranded(S)
        S.assume(cs < ce)
        col, kids, info = small_collection(S, ("coding", "feature"), chunk=cp)
        return NS(col=col, info=info, cs=cs, ce=ce)

    def samples(self, rng):
        from .c04_liftover import sample_chunk
        d = sample_collection(rng, 2)
        for j in range(2):
            d[f"s{j}"] = rng.randint(0, 12)
            d[f"e{j}"] = d[f"s{j}"] + rng.randint(1, 6)
        d.update(sample_chunk(rng, hi=8))
        if d["chunk_end"] == d["chunk_start"]:
            d["chunk_end"] += 1
            d["chunk_seq"] = "A"
        d["chunk_strand"] = rng.choice(["PLUS", "MINUS"])
        return d


class ChildrenOrderWithVariants(Case):
    """children / iteration of a collection that also holds variant collections, handed over in ANY order: all members
    - genes, feature collections and variant collections - come out ordered by start, and iter_children() is that list."""
    props = ("C20", "C09", "C13")
    name = "AnnotationCollection children sorted by start[gene + feature collection + two variant collections in any order]"
    func = AC + ".iter_children"
    module = "gene.collections"
    shard_depth = 5
    call = "([c.start for c in col.children], [c.start for c in col.iter_children()], [c.start for c in col])"
    ensures = {
        "sorted-by-start": lambda i, r: And(*[r[0][k] <= r[0][k + 1] for k in range(3)]),
        "every-member-once": lambda i, r: And(len(r[0]) == 4, *[
            Or(*[r[0][a] == x for x in i.startsall]) for a in range(4)], sum(r[0], 0) == sum(i.startsall, 0)),
        "iteration-is-children": lambda i, r: And(len(r[1]) == 4, len(r[2]) == 4, *[
            And(a == b, a == c) for a, b, c in zip(r[0], r[1], r[2])]),
    }

    def inputs(self, S):
        col0, kids, info = small_collection(S, ("coding", "feature"))
        vcs, vstarts = [], []
        for k in range(2):
            vs, ve = S.int(f"v{k}_start"), S.int(f"v{k}_end")
            S.assume(And(0 <= vs, vs < ve))
            v = S.new("gene.variants.VariantInterval", vs, ve, "A", "variant")
            vcs.append(S.new("gene.variants.VariantIntervalCollection", [v], variant_collection_id=f"hap{k}"))
            vstarts.append(vs)
        genes = [k for k, c in zip(kids, info) if c.kind != "feature"]
        fcs = [k for k, c in zip(kids, info) if c.kind == "feature"]
        # the variants lie OUTSIDE the gene and the feature (no haplotype is applied: only the order is at stake)
        for vs, ve in zip(vstarts, [S.int("v0_end"), S.int("v1_end")]):
            for c in info:
                S.assume(Or(ve <= c.s, vs >= c.e))
        col = S.new(AC, genes=genes, feature_collections=fcs, variant_collections=vcs)
        return NS(col=col, startsall=[c.s for c in info] + vstarts)

    def samples(self, rng):
        d = sample_collection(rng, 2)
        pts = sorted(rng.sample(range(0, 40), 8))
        order = [0, 1, 2, 3]
        rng.shuffle(order)
        iv = [(pts[2 * k], pts[2 * k + 1]) for k in order]
        d.update(s0=iv[0][0], e0=iv[0][1], s1=iv[1][0], e1=iv[1][1], v0_start=iv[2][0], v0_end=iv[2][1],
                 v1_start=iv[3][0], v1_end=iv[3][1])
        return d


class IdQueryBounds(Case):
    """_return_collection_for_id_queries (shared by every identifier / GUID query): the result spans the source
    bounds AND every kept member - min over ALL kept members' starts, max over ALL their ends, whatever the order in
    which they are kept (genes before feature collections, id-list order, nesting) - and keeps exactly those members.
    The source collection has explicit bounds that its members may overhang (as after a relaxed position query)."""
    props = ("C09", "C20")
    name = "AnnotationCollection._return_collection_for_id_queries[bounds = hull of source bounds and kept members]"
    func = AC + "._return_collection_for_id_queries"
    module = "gene.collections"
    shard_depth = 3
    call = ("(lambda r: (r.start, r.end, [g.gene_id for g in r.genes], "
            "[c.feature_collection_id for c in r.feature_collections]))"
            "(col._return_collection_for_id_queries([kids[0]], [kids[1]], []))")
    ensures = {
        "bounds-are-the-hull": lambda i, r: And(r[0] == Min(i.lo, Min(i.info[0].s, i.info[1].s)),
                                                r[1] == Max(i.hi, Max(i.info[0].e, i.info[1].e))),
        "members-kept": lambda i, r: And(list(r[2]) == ["g0"], list(r[3]) == ["fc"]),
    }

    def inputs(self, S):
        strand = strand_of(S, "strand")
        info, kids = [], []
        for j in range(2):
            s, e = S.int(f"s{j}"), S.int(f"e{j}")
            S.assume(And(0 <= s, s < e))
            info.append(NS(s=s, e=e))
        tx = S.new(TRANSCRIPT, [info[0].s], [info[0].e], strand, transcript_id="tx0")
        kids.append(S.new(GENE, [tx], gene_id="g0"))
        f = S.new(FEATURE, [info[1].s], [info[1].e], strand, feature_id="f1")
        kids.append(S.new(FCOL, [f], feature_collection_id="fc"))
        lo, hi = S.int("col_start"), S.int("col_end")
        S.assume(And(0 <= lo, lo < hi))
        col = S.new(AC, genes=[kids[0]], feature_collections=[kids[1]], start=lo, end=hi)
        return NS(col=col, kids=kids, info=info, lo=lo, hi=hi)

    def samples(self, rng):
        d = dict(strand=rng.choice(["PLUS", "MINUS"]))
        for j in range(2):
            s = rng.randint(0, 30)
            d[f"s{j}"], d[f"e{j}"] = s, s + rng.randint(1, 20)
        lo = rng.randint(0, 30)
        d.update(col_start=lo, col_end=lo + rng.randint(1, 20))
        return d


class ChildrenOrder3(ChildrenOrder):
    tier = "thorough"


ChildrenOrder.tier = "quick"  # 0.6 s since the overlap callee contract
K3 = ("coding", "noncoding", "feature")
CASES = [QueryByPosition(True, ("coding", "feature")), QueryByPosition(False, ("coding", "feature")),
         QueryByPosition(True, ("noncoding", "coding")), QueryByPosition(False, ("mixed", "noncoding")),
         QueryByPosition(True, K3), QueryByPosition(False, K3), QueryValidation(), ChildrenOrder(), ChildrenOrderOnChunk(), QueryExpand(), QueryStrictEndToEnd(), IdentifierQueries(), ChildrenOrderWithVariants(),
         QueryByPosition(False, ("split", "feature")), QueryByPosition(True, ("split", "feature")), IdQueryBounds()]
