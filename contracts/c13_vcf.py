"""C13 — io/vcf/parser.py:convert_vcf_records_to_model: "variant records from a VCF are grouped into haplotypes by phase
set with one variant per alternative allele".

The module cannot be imported here (PyVCF and marshmallow drift), so: the verifier reads its AST as usual (nothing is
imported); PyVCF records are plain record objects carrying exactly the attributes the function reads (CHROM, POS,
affected_start, affected_end, ALT[k].sequence / .type, samples[0].data[.PS]); ``Model.Schema().load(d)`` is the
trusted library model 'records (class, d)'.  For the CPython cross-check / replay the function's FunctionDef is cut
out of the file mechanically and compiled with stubs for the two third-party names (pyvc.sources.extracted_fn).

Record SHAPES are fixed per case (number of records, chromosomes, ALT alleles, which samples carry a phase set);
coordinates and phase-set numbers are symbolic integers: each case is a proof for all of them at that shape."""
from pyvc.spec import *  # noqa
from pyvc.sources import NS
from .common import *  # noqa
from .lib import LIB  # noqa

FN = "io.vcf.parser.convert_vcf_records_to_model"


class _Schema:
    def load(self, d):
        return _Model(d)


class _Model:
    def __init__(self, d):
        self.data = d


class _ModelClass:
    @staticmethod
    def Schema():
        return _Schema()


def _data(m):
    """dictionary a loaded model was built from (engine Opaque or native stub)."""
    if hasattr(m, "attrs") and "$data" in m.attrs:
        return m.attrs["$data"]
    return m.data


# shapes: list of records (chrom index, number of ALT alleles, phased?)
SHAPES = {
    "one unphased record, two ALT alleles": [(0, 2, False)],
    "two records in one phase set + one unphased": [(0, 1, True), (0, 1, False), (0, 1, True)],
    "three phased records (any phase-set numbers)": [(0, 1, True), (0, 1, True), (0, 1, True)],
    "two chromosomes, phased and unphased, two ALT alleles": [(0, 2, True), (1, 1, True), (1, 1, False)],
}


class VcfGrouping(Case):
    props = ("C13",)
    func = FN
    module = "gene.variants"  # any importable module: the call only uses the names passed in

    def __init__(self, shape):
        self.shape = shape
        self.name = f"convert_vcf_records_to_model[{shape}]"
        self.call = "convert(recs)"
        self.ensures = {
            "one-entry-per-chromosome": lambda i, r: sorted(r.keys()) == sorted({f"chr{c}" for c, _, _ in i.spec}),
            "one-variant-per-alternative-allele": lambda i, r: And(*[
                _count(r, f"chr{c}") == sum(n for c2, n, _ in i.spec if c2 == c) for c in {c for c, _, _ in i.spec}]),
            "every-allele-is-a-variant-with-the-record-span": lambda i, r: And(*[
                _present(r, f"chr{c}", v) for c, v in i.expected_variants]),
            "grouped-by-phase-set": lambda i, r: And(*[_grouping_ok(i, r, f"chr{c}") for c in {c for c, _, _ in i.spec}]),
            "collection-names-the-sequence-and-phase-set": lambda i, r: And(*[
                _naming_ok(m, chrom) for chrom, ms in r.items() for m in ms]),
        }

    def inputs(self, S):
        spec = SHAPES[self.shape]
        recs, expected = [], []
        for k, (c, nalt, phased) in enumerate(spec):
            a, b = S.int(f"start{k}"), S.int(f"end{k}")
            S.assume(And(0 <= a, a <= b))
            alts = [S.facade(sequence=f"ALT{k}{j}", type="SNV" if j == 0 else "INS") for j in range(nalt)]
            data = S.facade(GT="0|1")
            ps = None
            if phased:
                ps = S.int(f"ps{k}")
                S.assume(ps >= 1)  # VCF convention: phase sets are positive integers
                data = S.facade(GT="0|1", PS=ps)
            rec = S.facade(CHROM=f"chr{c}", POS=a + 1, affected_start=a, affected_end=b, ALT=alts,
                           samples=[S.facade(data=data)])
            recs.append(rec)
            for j in range(nalt):
                expected.append((c, dict(start=a, end=If(a == b, b + 1, b), sequence=f"ALT{k}{j}",
                                         variant_type="SNV" if j == 0 else "INS", phase_block=ps)))
        convert = S.extracted_fn(FN, dict(VariantIntervalCollectionModel=_ModelClass))
        return NS(recs=recs, convert=convert, spec=spec, expected_variants=expected)

    def samples(self, rng):
        d = {}
        for k, (c, nalt, phased) in enumerate(SHAPES[self.shape]):
            a = rng.randint(0, 30)
            d[f"start{k}"], d[f"end{k}"] = a, a + rng.choice([0, 1, 3])
            if phased:
                d[f"ps{k}"] = rng.choice([1, 2, 2, 7])
        return d

    def observe(self, r):
        from pyvc.check import default_observe as o
        out = {}
        for chrom, ms in r.items():
            out[chrom] = [[(o(v["start"]), o(v["end"]), v["sequence"], o(v.get("phase_block"))) for v in
                           _data(m)["variant_intervals"]] + [_data(m).get("variant_collection_id")] for m in ms]
        return out


def _variants(r, chrom):
    return [(gi, v) for gi, m in enumerate(r[chrom]) for v in _data(m)["variant_intervals"]]


def _count(r, chrom):
    return len(_variants(r, chrom))


def _same_variant(v, e):
    conds = [v["start"] == e["start"], v["end"] == e["end"], v["sequence"] == e["sequence"],
             v["variant_type"] == e["variant_type"]]
    if e["phase_block"] is None:
        if "phase_block" in v:
            return False
    else:
        if "phase_block" not in v:
            return False
        conds.append(v["phase_block"] == e["phase_block"])
    return And(*conds)


def _present(r, chrom, e):
    return Or(*[_same_variant(v, e) for _, v in _variants(r, chrom)])


def _grouping_ok(i, r, chrom):
    """two variants share a collection iff both are phased with the same phase-set number (unphased variants are
    haplotypes of their own)."""
    vs = _variants(r, chrom)
    parts = []
    for a in range(len(vs)):
        for b in range(a + 1, len(vs)):
            (ga, va), (gb, vb) = vs[a], vs[b]
            both = "phase_block" in va and "phase_block" in vb
            same_ps = (va["phase_block"] == vb["phase_block"]) if both else False
            parts.append(Iff(ga == gb, same_ps) if not isinstance(same_ps, bool) else ((ga == gb) == same_ps))
    return And(*parts) if parts else True


def _naming_ok(m, chrom):
    d = _data(m)
    if d.get("sequence_name") != chrom:
        return False
    vs = d["variant_intervals"]
    if "phase_block" in vs[0]:
        return _is_decimal_of(d.get("variant_collection_id"), vs[0]["phase_block"])
    return "variant_collection_id" not in d


def _is_decimal_of(t, n):
    """t is the decimal rendering of the integer n (native str, or the engine's str(int) / text value)."""
    if isinstance(t, str):
        return t == str(n) if isinstance(n, int) else False
    tag = getattr(t, "tag", None)
    if tag == "str(int)":
        return t.attrs["int"] == n
    if tag == "text":
        parts = t.attrs["parts"]
        return len(parts) == 1 and not isinstance(parts[0], str) and parts[0][0] == "int" and parts[0][1] == n
    return False


CASES = [VcfGrouping(s) for s in SHAPES]

CANARIES = [
    dict(name="vcf: only the first alternative allele becomes a variant", props=("C13",),
         file="inscripta/biocantor/io/vcf/parser.py",
         old="            for alt in seq_variant.ALT:", new="            for alt in seq_variant.ALT[:1]:",
         case="convert_vcf_records_to_model[one unphased record, two ALT alleles]",
         expect="post:one-variant-per-alternative-allele"),
    dict(name="vcf: grouping key ignores the phase set", props=("C13",),
         file="inscripta/biocantor/io/vcf/parser.py",
         old='itertools.groupby(sorted_variants, key=lambda x: x.get("phase_block")):',
         new='itertools.groupby(sorted_variants, key=lambda x: "phase_block" in x or None):',
         case="convert_vcf_records_to_model[three phased records (any phase-set numbers)]",
         expect="post:grouped-by-phase-set"),
]
