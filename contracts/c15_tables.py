"""C15 — built-in biological tables and enumerated algebras.

Finite domains are decided completely: the real functions are executed by the engine on every element and each
clause is a ground obligation against the specification embedded HERE (NCBI tables, IUPAC codes), never against the
code's own tables.  The enum algebras are proved symbolically (all members x all integers)."""
import itertools

from pyvc.spec import *  # noqa
from pyvc.sources import NS
from .lib import LIB  # noqa

# ---- embedded specification -----------------------------------------------------------------------------------
_B = "TCAG"
NCBI_AAS = "FFLLSSSSYY**CC*WLLLLPPPPHHQQRRRRIIIMTTTTNNKKSSRRVVVVAAAADDEEGGGG"
NCBI_STARTS_1 = "---M------**--*----M---------------M----------------------------"
NCBI_STARTS_11 = "---M------**--*----M------------MMMM---------------M------------"
CODONS64 = [a + b + c for a in _B for b in _B for c in _B]
STD = dict(zip(CODONS64, NCBI_AAS))
STARTS = {"DEFAULT": {"ATG"},
          "STANDARD": {c for c, s in zip(CODONS64, NCBI_STARTS_1) if s == "M"},
          "PROKARYOTE": {c for c, s in zip(CODONS64, NCBI_STARTS_11) if s == "M"}}
IUPAC = {"A": "A", "C": "C", "G": "G", "T": "T", "U": "T", "R": "AG", "Y": "CT", "S": "CG", "W": "AT", "K": "GT",
         "M": "AC", "B": "CGT", "D": "AGT", "H": "ACT", "V": "ACG", "N": "ACGT"}
IUPAC_COMPLEMENT = {"A": "T", "C": "G", "G": "C", "T": "A", "U": "A", "R": "Y", "Y": "R", "S": "S", "W": "W",
                    "K": "M", "M": "K", "B": "V", "D": "H", "H": "D", "V": "B", "N": "N", "-": "-"}
LETTERS16 = "ATUCGNWSMKRYBDHV"
NT_ALPHABETS = ["NT_STRICT", "NT_EXTENDED", "NT_STRICT_GAPPED", "NT_EXTENDED_GAPPED", "NT_STRICT_UNKNOWN"]
ALL_ALPHABETS = NT_ALPHABETS + ["AA", "AA_EXTENDED", "AA_STRICT_GAPPED", "AA_EXTENDED_GAPPED", "AA_STRICT_UNKNOWN",
                                "GENERIC"]


def expansions(codon):
    return ["".join(t) for t in itertools.product(*[IUPAC[ch] for ch in codon])]


def codon_strs(objs):
    return sorted(str(getattr(o, "_val")) for o in objs)


class CodonTriplets(Case):
    """All 16^3 IUPAC triplets (upper case) through the real Codon methods."""
    name = "Codon[all 4096 IUPAC triplets]"
    props = ("C15",)
    func = "gene.codon.Codon.translate"
    call = ("(lambda k: (k.translate(), k.translate(strict=False), k.is_stop_codon, "
            "k.is_strict_codon, k.is_canonical_start_codon, "
            "k.synonymous_codons(include_self=True), k.synonymous_codons(), "
            "[k.is_start_codon_in_specific_translation_table(t) for t in "
            "(TranslationTable.DEFAULT, TranslationTable.STANDARD, TranslationTable.PROKARYOTE)], "
            "k.is_start_codon_in_specific_translation_table()))(Codon(c))")
    ensures = {
        "strict-codon-standard-code": lambda i, r: r[0] == STD.get(i.c, "X"),
        "strict-flag": lambda i, r: r[3] == (i.c in STD),
        "ambiguous-translation-sound": lambda i, r: r[1] == "X" or all(STD[e] == r[1] for e in expansions(i.c)),
        "nonstrict-agrees-on-strict": lambda i, r: (i.c not in STD) or r[1] == STD[i.c],
        "stop-set-is-NCBI": lambda i, r: r[2] == (STD.get(i.c) == "*"),
        "canonical-start": lambda i, r: r[4] == (i.c == "ATG"),
        "synonymous-partition": lambda i, r: codon_strs(r[5]) == (
            sorted(set([k for k, a in STD.items() if a == r[1]] + ([i.c] if False else []))) if r[1] != "X"
            else [i.c]),
        "synonymous-excludes-self": lambda i, r: codon_strs(r[6]) == (
            sorted(k for k, a in STD.items() if a == r[1] and k != i.c) if r[1] != "X" else []),
        "start-sets-are-NCBI-1-11-and-ATG": lambda i, r: list(r[7]) == [i.c in STARTS["DEFAULT"],
                                                                        i.c in STARTS["STANDARD"],
                                                                        i.c in STARTS["PROKARYOTE"]],
        "default-table-is-ATG-only": lambda i, r: r[8] == (i.c == "ATG"),
    }

    def inputs(self, S):
        return NS(c=S.const("c"), Codon=S.cls("gene.codon.Codon"), TranslationTable=S.cls("gene.codon.TranslationTable"))

    def ground(self):
        for t in itertools.product(LETTERS16, repeat=3):
            yield {"c": "".join(t)}

    def observe(self, r):
        return [r[0], r[1], r[2], r[3], r[4], codon_strs(r[5]), codon_strs(r[6]), list(r[7]), r[8]]


class CodonConstructor(Case):
    """Codon() normalises case and rejects non-nucleotide / wrong-length strings with ValueError."""
    name = "Codon.__init__[lengths 0..4 over a hostile alphabet]"
    props = ("C15", "C19")
    func = "gene.codon.Codon.__init__"
    call = "str(Codon(c))"
    raises = {"ValueError": lambda i: len(i.c) != 3 or any(ch.upper() not in LETTERS16 for ch in i.c)}
    ensures = {"upper": lambda i, r: r == i.c.upper()}

    def inputs(self, S):
        return NS(c=S.const("c"), Codon=S.cls("gene.codon.Codon"))

    def ground(self):
        for n in range(0, 5):
            for t in itertools.product("AaUn-X", repeat=n):
                yield {"c": "".join(t)}


class CodonHeldReference(Case):
    """A Codon obtained earlier keeps answering correctly after codons with other spellings (lower case, RNA 'U') are
    constructed: the singleton table is keyed by the exact upper-cased spelling."""
    name = "Codon singletons[held reference survives construction of other spellings]"
    props = ("C15", "C10")
    func = "gene.codon.Codon.__new__"
    call = ("(lambda held: (Codon(other), held.translate(), str(held), held.is_stop_codon, held.is_strict_codon, "
            "held is Codon(c)))(Codon(c))")
    ensures = {
        "held-codon-unchanged": lambda i, r: And(r[1] == STD.get(i.c, "X"), r[2] == i.c, r[3] == (STD.get(i.c) == "*"),
                                                 r[4] == (i.c in STD), r[5] is True),
    }

    def inputs(self, S):
        return NS(c=S.const("c"), other=S.const("other"), Codon=S.cls("gene.codon.Codon"))

    def ground(self):
        for c in CODONS64:
            yield {"c": c, "other": c.replace("T", "U")}
            yield {"c": c, "other": c.lower()}

    def observe(self, r):
        return [r[1], r[2], r[3], r[4], r[5]]


class CodonRegistryStable(Case):
    """The codon registry is process-wide state behind every Codon(...) call: a codon obtained at the start is still
    THE codon of its spelling after every one of the 3375 IUPAC triplets has been constructed in between (codon
    equality is identity, and the start-codon sets hold the objects created at import), and it still answers the
    start-codon question the same way."""
    name = "Codon registry[a held codon survives the construction of all 3375 IUPAC triplets]"
    props = ("C15", "C10")
    func = "gene.codon.Codon.__new__"
    call = ("(lambda held, before: ([Codon(x) for x in allc], held is Codon(c), "
            "held.is_start_codon_in_specific_translation_table(TranslationTable.PROKARYOTE) == before, "
            "Codon(c).is_start_codon_in_specific_translation_table(TranslationTable.PROKARYOTE) == before)[1:])"
            "(Codon(c), Codon(c).is_start_codon_in_specific_translation_table(TranslationTable.PROKARYOTE))")
    ensures = {"same-object-same-answers": lambda i, r: tuple(r) == (True, True, True)}

    def inputs(self, S):
        import itertools
        letters = "ACGTRYSWKMBDHVN"
        allc = ["".join(t) for t in itertools.product(letters, repeat=3)]
        return NS(c=S.const("c"), allc=allc, Codon=S.cls("gene.codon.Codon"),
                  TranslationTable=S.cls("gene.codon.TranslationTable"))

    def ground(self):
        yield {"c": "TTG"}  # a start codon of the prokaryote table only

    def observe(self, r):
        return list(r)


class GencodeTables(Case):
    """The literal tables themselves (gencode, extended_gencode, aacodons) against the embedded NCBI table."""
    name = "constants[gencode, extended_gencode, aacodons]"
    props = ("C15",)
    func = "constants"
    module = "gene.codon"
    call = "(gencode, extended_gencode, aacodons)"
    ensures = {
        "gencode-is-standard-code": lambda i, r: dict(r[0]) == STD,
        "extended-gencode-sound": lambda i, r: all(all(STD[e] == aa for e in expansions(k)) for k, aa in r[1].items()),
        "aacodons-partitions-64": lambda i, r: sorted(c for v in r[2].values() for c in v) == sorted(CODONS64),
        "aacodons-agrees-with-code": lambda i, r: all(STD[c] == aa for aa, v in r[2].items() for c in v),
    }

    def inputs(self, S):
        return NS()

    def ground(self):
        yield {}

    def observe(self, r):
        return [dict(r[0]), dict(r[1]), {k: list(v) for k, v in r[2].items()}]


class StartCodonTables(Case):
    """The initiator-codon sets of the three translation tables, as documented on TranslationTable (DEFAULT: ATG only;
    table 1: ATG, TTG, CTG; table 11: ATG, TTG, CTG, ATT, ATC, ATA, GTG), through the question every consumer asks -
    Codon.is_start_codon_in_specific_translation_table - for all 64 codons x 3 tables; the canonical start is ATG."""
    name = "Codon start-codon tables[64 codons x 3 translation tables]"
    props = ("C15", "C17", "C05")
    func = "gene.codon.Codon.is_start_codon_in_specific_translation_table"
    module = "gene.codon"
    call = ("[[Codon(c).is_start_codon_in_specific_translation_table(TranslationTable[t]) for c in codons] for t in tables] + "
            "[[Codon(c).is_canonical_start_codon for c in codons]]")
    STARTS = {"DEFAULT": {"ATG"}, "STANDARD": {"ATG", "TTG", "CTG"},
              "PROKARYOTE": {"ATG", "TTG", "CTG", "ATT", "ATC", "ATA", "GTG"}}
    ensures = {
        "documented-initiator-sets": lambda i, r: all(
            [c for c, flag in zip(i.codons, r[k]) if flag] == sorted(StartCodonTables.STARTS[t], key=i.codons.index)
            for k, t in enumerate(i.tables)),
        "canonical-start-is-ATG": lambda i, r: [c for c, flag in zip(i.codons, r[3]) if flag] == ["ATG"],
    }

    def inputs(self, S):
        return NS(codons=list(CODONS64), tables=["DEFAULT", "STANDARD", "PROKARYOTE"])

    def ground(self):
        yield {}

    def observe(self, r):
        return [list(map(bool, x)) for x in r]


class ComplementTables(Case):
    name = "ALPHABET_TO_NUCLEOTIDE_COMPLEMENT[every alphabet x letter x case]"
    props = ("C15", "C03")
    func = "sequence.alphabet.Alphabet.is_nucleotide_alphabet"
    module = "sequence.alphabet"
    call = ("(Alphabet[a].is_nucleotide_alphabet(), Alphabet[a] in ALPHABET_TO_NUCLEOTIDE_COMPLEMENT, "
            "ALPHABET_TO_NUCLEOTIDE_COMPLEMENT.get(Alphabet[a]), Alphabet[a].value)")
    ensures = {
        "nucleotide-flag": lambda i, r: r[0] == (i.a in NT_ALPHABETS),
        "table-present-iff-nucleotide": lambda i, r: r[1] == (i.a in NT_ALPHABETS),
        "keys-are-alphabet-both-cases": lambda i, r: (not r[1]) or sorted(r[2].keys()) == sorted(
            set(ch for L in r[3] for ch in (L.upper(), L.lower()))),
        "agrees-with-IUPAC-complement": lambda i, r: (not r[1]) or all(
            v.upper() == IUPAC_COMPLEMENT[k.upper()] for k, v in r[2].items()),
        "case-preserved": lambda i, r: (not r[1]) or all(v.isupper() == k.isupper() or k == "-" for k, v in r[2].items()),
        "involution-except-U": lambda i, r: (not r[1]) or all(
            r[2][r[2][k]] == (k if k.upper() != "U" else {"U": "T", "u": "t"}[k]) for k in r[2]),
        "closed": lambda i, r: (not r[1]) or all(v in r[2] for v in r[2].values()),
    }

    def inputs(self, S):
        return NS(a=S.const("a"))

    def ground(self):
        for a in ALL_ALPHABETS:
            yield {"a": a}

    def observe(self, r):
        return [r[0], r[1], dict(r[2]) if r[2] is not None else None, r[3]]


# ---- enum algebras, symbolic -----------------------------------------------------------------------------------
FRAME = "gene.cds_frame.CDSFrame"
PHASE = "gene.cds_frame.CDSPhase"
STRAND = "location.strand.Strand"


class FrameShift(Case):
    name = "CDSFrame.shift[all frames x all integers]"
    props = ("C15", "C05")
    func = "gene.cds_frame.CDSFrame.shift"
    call = "(f.shift(n), f.shift(n).shift(m), f.shift(n + m))"
    ensures = {
        "Z3-action": lambda i, r: If(enum_name_is(i.f, "NONE"), enum_name_is(r[0], "NONE"),
                                      enum_value(r[0]) == Mod(enum_value(i.f) + i.n, 3)),
        "composition": lambda i, r: enum_eq(r[1], r[2]),
    }

    def inputs(self, S):
        return NS(f=S.enum(FRAME, "f"), n=S.int("n"), m=S.int("m"))

    def samples(self, rng):
        return dict(f=rng.choice(["NONE", "ZERO", "ONE", "TWO"]), n=rng.randint(-30, 30), m=rng.randint(-30, 30))


class FramePhase(Case):
    name = "CDSFrame.to_phase / CDSPhase.to_frame round trip"
    props = ("C15", "C05", "C11")
    func = "gene.cds_frame.CDSFrame.to_phase"
    call = "(f.to_phase(), f.to_phase().to_frame(), p.to_frame(), p.to_frame().to_phase(), p.to_gff())"
    ensures = {
        "phase-is-minus-frame-mod-3": lambda i, r: If(enum_name_is(i.f, "NONE"), enum_name_is(r[0], "NONE"),
                                                      enum_value(r[0]) == Mod(-enum_value(i.f), 3)),
        "frame-roundtrip": lambda i, r: enum_eq(r[1], i.f),
        "frame-is-minus-phase-mod-3": lambda i, r: If(enum_name_is(i.p, "NONE"), enum_name_is(r[2], "NONE"),
                                                      enum_value(r[2]) == Mod(-enum_value(i.p), 3)),
        "phase-roundtrip": lambda i, r: enum_eq(r[3], i.p),
        "gff-symbol": lambda i, r: r[4] == {"NONE": ".", "ZERO": "0", "ONE": "1", "TWO": "2"}[_name(i.p)],
    }

    def inputs(self, S):
        return NS(f=S.enum(FRAME, "f"), p=S.enum(PHASE, "p"))

    def ground(self):
        for f in ("NONE", "ZERO", "ONE", "TWO"):
            for p in ("NONE", "ZERO", "ONE", "TWO"):
                yield dict(f=f, p=p)


def _name(e):
    return e.members[e.idx][0] if hasattr(e, "members") else e.name


class FrameFromInt(Case):
    name = "CDSFrame.from_int / CDSPhase.from_int[all integers]"
    props = ("C15", "C19")
    func = "gene.cds_frame.CDSFrame.from_int"
    call = "(CDSFrame.from_int(k), CDSPhase.from_int(k))"
    raises = {"ValueError": lambda i: Or(i.k < -1, i.k > 2)}
    ensures = {"value": lambda i, r: And(enum_value(r[0]) == i.k, enum_value(r[1]) == i.k)}

    def inputs(self, S):
        return NS(k=S.int("k"), CDSFrame=S.cls(FRAME), CDSPhase=S.cls(PHASE))

    def samples(self, rng):
        return dict(k=rng.randint(-4, 5))


class StrandAlgebra(Case):
    name = "Strand algebra[all triples]"
    props = ("C15", "C01")
    func = "location.strand.Strand.relative_to"
    call = ("(a.reverse().reverse(), a.relative_to(b), b.relative_to(a), a.relative_to(b).relative_to(c), "
            "a.relative_to(b.relative_to(c)), a.relative_to(Strand.PLUS), a.relative_to(Strand.UNSTRANDED), "
            "a.relative_to(a), Strand.from_symbol(a.to_symbol()), Strand.from_int(a.value), a < b, b < a, a == b, "
            "a.reverse(), str(a))")
    ensures = {
        "reverse-involutive": lambda i, r: enum_eq(r[0], i.a),
        "reverse-swaps": lambda i, r: enum_value(r[13]) == -enum_value(i.a),
        "relative_to-is-sign-product": lambda i, r: enum_value(r[1]) == enum_value(i.a) * enum_value(i.b),
        "commutative": lambda i, r: enum_eq(r[1], r[2]),
        "associative": lambda i, r: enum_eq(r[3], r[4]),
        "PLUS-neutral": lambda i, r: enum_eq(r[5], i.a),
        "UNSTRANDED-absorbing": lambda i, r: enum_name_is(r[6], "UNSTRANDED"),
        "self-relative-is-PLUS-when-directed": lambda i, r: If(enum_name_is(i.a, "UNSTRANDED"),
                                                               enum_name_is(r[7], "UNSTRANDED"),
                                                               enum_name_is(r[7], "PLUS")),
        "symbol-roundtrip": lambda i, r: enum_eq(r[8], i.a),
        "int-roundtrip": lambda i, r: enum_eq(r[9], i.a),
        "strict-total-order": lambda i, r: And(Not(And(r[10], r[11])), Iff(Or(r[10], r[11]), Not(r[12]))),
        "order-PLUS<MINUS<UNSTRANDED": lambda i, r: Iff(r[10], _rank(i.a) < _rank(i.b)),
        "symbol": lambda i, r: r[14] == {"PLUS": "+", "MINUS": "-", "UNSTRANDED": "."}[_name(i.a)],
    }

    def inputs(self, S):
        return NS(a=S.enum(STRAND, "a"), b=S.enum(STRAND, "b"), c=S.enum(STRAND, "c"), Strand=S.cls(STRAND))

    def ground(self):
        for a in ("PLUS", "MINUS", "UNSTRANDED"):
            for b in ("PLUS", "MINUS", "UNSTRANDED"):
                for c in ("PLUS", "MINUS", "UNSTRANDED"):
                    yield dict(a=a, b=b, c=c)


def _rank(e):
    v = enum_value(e)
    return If(v == 1, 1, If(v == -1, 2, 3))


class StrandFromSymbol(Case):
    name = "Strand.from_symbol / from_int rejects"
    props = ("C15", "C19")
    func = "location.strand.Strand.from_symbol"
    call = "Strand.from_symbol(s).name"
    raises = {"ValueError": lambda i: i.s not in ("+", "-", ".")}
    ensures = {"value": lambda i, r: r == {"+": "PLUS", "-": "MINUS", ".": "UNSTRANDED"}[i.s]}

    def inputs(self, S):
        return NS(s=S.const("s"), Strand=S.cls(STRAND))

    def ground(self):
        for s in ["+", "-", ".", "", "++", "plus", "1", "*", " "]:
            yield dict(s=s)


class StrandFromInt(Case):
    name = "Strand.from_int[all integers]"
    props = ("C15", "C19")
    func = "location.strand.Strand.from_int"
    call = "Strand.from_int(k)"
    raises = {"ValueError": lambda i: Or(i.k < -1, i.k > 1)}
    ensures = {"value": lambda i, r: enum_value(r) == i.k}

    def inputs(self, S):
        return NS(k=S.int("k"), Strand=S.cls(STRAND))

    def samples(self, rng):
        return dict(k=rng.randint(-3, 3))


class BiotypeSynonyms(Case):
    """The Biotype enum is created with the functional Enum API from a literal list of [name, value] pairs; members
    with equal values are aliases of one member.  The literal is read from the AST."""
    name = "Biotype synonyms share values"
    props = ("C15",)
    func = "gene.biotype"
    module = "gene.biotype"
    call = "biotype_names"
    SYN = [("protein_coding", "protein-coding", "mRNA"), ("misc_RNA", "miscRNA"), ("pseudogene", "pseudo"),
           ("lncRNA", "lnc_RNA")]
    ensures = {
        "synonyms-equal": lambda i, r: all(len({dict(map(tuple, r))[n] for n in grp}) == 1
                                           for grp in BiotypeSynonyms.SYN),
        "names-unique": lambda i, r: len({n for n, _ in r}) == len(r),
        "non-synonyms-distinct": lambda i, r: len({v for _, v in r}) == len(r) - sum(
            len(g) - 1 for g in BiotypeSynonyms.SYN),
    }

    def inputs(self, S):
        if S.mode == "native":
            B = S.cls("gene.biotype.Biotype")
            return NS(biotype_names=[[n, m.value] for n, m in B.__members__.items()])
        import ast
        mod = S.e.repo.module("gene.biotype")
        callnode = mod.assigns["Biotype"]
        names = [k.value for k in callnode.keywords if k.arg == "names"][0]
        return NS(biotype_names=ast.literal_eval(names))

    def ground(self):
        yield {}


class CodonFrames(Case):
    """Table-driven classes keep no hidden state: frame / kind obligations, and the containers they hand out
    (synonymous_codons) are the caller's own - never the library's table itself."""
    props = ("C15",)
    name = "frame / kind / escape obligations on Codon, CDSFrame, CDSPhase, Strand"
    func = "gene.codon.Codon.synonymous_codons"
    static = dict(classes=["gene.codon.Codon", "gene.cds_frame.CDSFrame", "gene.cds_frame.CDSPhase",
                           "location.strand.Strand"], kinds=("frame", "kind", "escape"), accepted={})


CASES = [CodonFrames(), CodonTriplets(), CodonConstructor(), CodonHeldReference(), CodonRegistryStable(), GencodeTables(), StartCodonTables(), ComplementTables(), FrameShift(), FramePhase(),
         FrameFromInt(), StrandAlgebra(), StrandFromSymbol(), StrandFromInt(), BiotypeSynonyms()]

CANARIES = [
    dict(name="gencode: TGA->W", props=("C15",), file="inscripta/biocantor/constants.py",
         old='"TGA": "*",', new='"TGA": "W",', case="Codon[all 4096 IUPAC triplets]",
         expect="post:strict-codon-standard-code"),
    dict(name="complement: swapped K/M", props=("C15",), file="inscripta/biocantor/sequence/alphabet.py",
         old='"S": "S", "W": "W"' , new='"S": "W", "W": "S"', case="ALPHABET_TO_NUCLEOTIDE_COMPLEMENT[every alphabet x letter x case]",
         expect="post:agrees-with-IUPAC-complement"),
    dict(name="shift: dropped mod", props=("C15",), file="inscripta/biocantor/gene/cds_frame.py",
         old="return CDSFrame.from_int((self.value + shift) % 3)", new="return CDSFrame.from_int((self.value + shift + 3) % 3 if shift < 7 else (self.value + shift + 1) % 3)",
         case="CDSFrame.shift[all frames x all integers]", expect="post:Z3-action"),
]
