"""C13 — incorporate_variants end to end on FeatureInterval / CDSInterval / TranscriptInterval (real constructors,
real VariantInterval with sequence on a sequence-chunk parent with symbolic text).

For a variant lying wholly inside one block or wholly outside all of them (the statement's quantifier) the new
interval's chromosome location covers exactly the edited image of the source blocks (free position q on the
alternative haplotype), identifiers / flags are carried over, the chunk-relative location sits on the parent carrying
the ALTERNATIVE sequence, the CDS keeps its start frame with frames forming one reading frame, and an interval
deleted entirely is refused with EmptyLocationException (documented) instead of being built."""
from pyvc.spec import *  # noqa
from pyvc.sources import NS
from .common import *  # noqa
from .gene_common import *  # noqa
from .c02_single import covers_pos, blocks_of, wf_result
from .c04_liftover import chunk_parent
from .c13_variants import VAR, VCOL, _charat, _refat
from .lib import LIB, HOS  # noqa


def _variant_on(S, cp, cs, ce, name="v"):
    vs, ve = S.int(name + "_start"), S.int(name + "_end")
    alt = S.symstr(name + "_alt", "ACGTN")
    S.assume(And(cs <= vs, vs < ve, ve <= ce))
    v = S.new(VAR, vs, ve, alt, "variant", parent_or_seq_chunk_parent=cp)
    return v, vs, ve, alt


def _placed_all(i):
    inside = Or(*[And(s <= i.vs, i.ve <= e) for s, e in zip(i.starts, i.ends)])
    outside = And(*[Or(i.ve <= s, i.vs >= e) for s, e in zip(i.starts, i.ends)])
    return Or(inside, outside)


def _image(i, starts=None, ends=None):
    out = []
    for s, e in zip(starts or i.starts, ends or i.ends):
        out.append((s + If(i.ve <= s, i.d, 0), e + If(Or(i.ve <= s, And(s <= i.vs, i.ve <= e)), i.d, 0)))
    return out


def _all_deleted(i, starts=None, ends=None):
    return And(*[a >= b for a, b in _image(i, starts, ends)])


def _wf_blocks(loc):
    """chromosome_location of an interval object (always stored as a CompoundInterval, also for one block): blocks
    non-empty, sorted, pairwise disjoint and not mergeable."""
    bl = blocks_of(loc)
    parts = [And(0 <= s, s < e) for s, e in bl]
    parts += [e1 < s2 for (s1, e1), (s2, e2) in zip(bl, bl[1:])]
    return And(len(bl) >= 1, *parts)


def _chunk_deleted(i):
    """the variant deletes every base of the loaded chunk: there is no alternative sequence to place anything on
    (documented NullSequenceException of the chunk lift-over)."""
    return (i.ce - i.cs) + i.d == 0


def _same_enum(a, b):
    return enum_eq(a, b) if hasattr(a, "idx") else a is b


def _sample_common(rng, d, lo, hi):
    """chunk containing [lo, hi) plus a margin; a variant somewhere on the chunk."""
    cs = rng.randint(max(0, lo - 2), lo)
    ce = hi + rng.randint(0, 3)
    vs = rng.randint(cs, ce - 1)
    ve = min(ce, vs + rng.randint(1, 3))
    d.update(chunk_start=cs, chunk_end=ce, chunk_seq="".join(rng.choice("ACGT") for _ in range(ce - cs)),
             v_start=vs, v_end=ve, v_alt="".join(rng.choice("ACGT") for _ in range(rng.randint(0, 4))), q=rng.randint(0, 24))
    return d


class FeatureIncorporate(Case):
    props = ("C13",)
    summaries = (HOS,)  # callee contract proved by c02_single.OverlapCore
    shard_depth = 6
    func = FEATURE + ".incorporate_variants"

    def __init__(self, n):
        self.n = n
        self.name = f"FeatureInterval.incorporate_variants[{n} blocks, variant with sequence on a chunk]"
        if n > 1:
            self.allow_uncovered = ("raise:EmptyLocationException", "raise:NullSequenceException")
        self.call = ("(lambda r: (r, r.chromosome_location, r.chunk_relative_location, r.strand, r.feature_id, r.feature_name, "
                     "r.sequence_name, r.is_primary_feature, (lambda s: (len(s), s))(r.get_spliced_sequence())))"
                     "(f.incorporate_variants(v))")
        self.raises = {"EmptyLocationException": lambda i: And(_all_deleted(i), Not(_chunk_deleted(i))),
                       "NullSequenceException": _chunk_deleted}
        self.ensures = {
            "chromosome-location-covers-exactly-the-edited-image": lambda i, r: (
                Iff(covers_pos(r[1], i.q),
                                    Or(*[And(a <= i.q, i.q < b) for a, b in _image(i)]))),
            "chunk-relative-location-is-the-image-in-chunk-coordinates": lambda i, r: (
                Iff(covers_pos(r[2], i.q - i.cs),
                                    Or(*[And(a <= i.q, i.q < b) for a, b in _image(i)]))),
            "well-formed": lambda i, r: _wf_blocks(r[1]),
            "strand-kept": lambda i, r: _same_enum(r[3], i.strand),
            "identifiers-and-flags-carried-over": lambda i, r: And(
                r[4] == "fid", r[5] == "fname", r[6] == "chr1", r[7] == True),  # noqa: E712
            "sits-on-the-alternative-sequence": lambda i, r: _alt_text_ok(i, r),
            # statement: 'the spliced sequence of a feature ... after incorporating variants equals its reference
            # spliced sequence with the edits applied' - character by character on symbolic text
            "spliced-sequence-is-the-reference-with-the-edit-applied": lambda i, r: And(
                r[8][0] == sum((Max(0, b - a) for a, b in _image(i)), 0),
                Implies(And(0 <= i.k, i.k < r[8][0]),
                        _charat(r[8][1], i.k) == _edited_base(i, _image_pos(i, i.k)))),
        }

    def inputs(self, S):
        starts, ends = block_lists(S, "f", self.n, allow_adjacent=False)
        strand = strand_of(S, "strand")
        cp, cs, ce = chunk_parent(S)
        S.assume(And(cs <= starts[0], ends[-1] <= ce))
        v, vs, ve, alt = _variant_on(S, cp, cs, ce)
        f = S.new(FEATURE, starts, ends, strand, sequence_name="chr1", feature_id="fid", feature_name="fname",
                  is_primary_feature=True, parent_or_seq_chunk_parent=cp)
        l = slen(alt)
        i = NS(f=f, v=v, vs=vs, ve=ve, l=l, d=l - (ve - vs), starts=starts, ends=ends, strand=strand, q=S.int("q"),
               cs=cs, ce=ce, alt=alt, k=S.int("k"), ref=S.symstr("chunk_seq"), edits=[(vs - cs, ve - cs, alt)])
        S.assume(_placed_all(i))  # the statement's quantifier: variant wholly inside one block or outside all
        return i

    def samples(self, rng):
        d = sample_blocks(rng, "f", self.n, lo=2, gap=(1, 2, 3))
        d["strand"] = rng.choice(["PLUS", "MINUS"])
        d["k"] = rng.randint(0, 10)
        return _sample_common(rng, d, d["f_starts"][0], d["f_ends"][-1])

    def observe(self, r):
        from .c02_single import obs_loc
        text = r[8][1].sequence if hasattr(r[8][1], "attrs") else str(r[8][1])
        return [obs_loc(r[1])[:3], obs_loc(r[2])[:3], text if isinstance(text, str) else None]


def _image_pos(i, t):
    """position on the ALTERNATIVE haplotype (chromosome coordinates) of relative position t of the lifted feature:
    the point-wise map over the image blocks (empty images contribute nothing), 5'->3'."""
    img = _image(i)
    order = list(range(len(img))) if _plus(i) else list(range(len(img) - 1, -1, -1))
    expr = -1
    pre = 0
    parts = []
    for k in order:
        a, b = img[k]
        ln = Max(0, b - a)
        parts.append((And(pre <= t, t < pre + ln), (a + (t - pre)) if _plus(i) else (b - 1 - (t - pre))))
        pre = pre + ln
    for cond, val in reversed(parts):
        expr = If(cond, val, expr)
    return expr


def _edited_base(i, p):
    """base (of the feature's strand) at alternative-haplotype position p: the literal substitution of the variant
    into the chunk text (edit model of c13_variants), complemented for a minus-strand feature."""
    from .c13_variants import _edit_model
    c = _edit_model(i, p - i.cs)
    if _plus(i):
        return c
    out = c  # IUPAC complement restricted to the letters in play (reference ACGT, alternative allele ACGTN: N -> N)
    for a, b in (("A", "T"), ("T", "A"), ("C", "G"), ("G", "C")):
        out = If(c == ord(a), ord(b), out)
    return out


def _alt_text_ok(i, r):
    """the new interval's chunk-relative location sits on a parent whose sequence is the ALTERNATIVE haplotype: its
    length is the chunk length + d (the k-th character is proved equal to the literal substitution by
    c13_variants.AlternativeSequence on the same accessor)."""
    loc = r[2]
    if class_name(loc) == "_EmptyLocation":
        return False
    par = loc.parent
    if par is None or par.sequence is None:
        return False
    text = par.sequence.sequence if hasattr(par.sequence, "attrs") else str(par.sequence)
    return slen(text) == (i.ce - i.cs) + i.d


class CdsIncorporate(Case):
    props = ("C13",)
    summaries = (HOS,)  # callee contract proved by c02_single.OverlapCore
    shard_depth = 7
    func = CDS + ".incorporate_variants"

    def __init__(self, n, place=None, tier="quick"):
        self.n, self.place, self.tier = n, place, tier
        self.shard_depth = 5 if n == 1 else (4 if place else 7)
        self.name = (f"CDSInterval.incorporate_variants[{n} blocks, variant with sequence on a chunk"
                     + (f", variant {place} the CDS" if place else "") + "]")
        if n > 1:
            self.allow_uncovered = ("raise:EmptyLocationException", "raise:NullSequenceException")
        self.call = ("(lambda r: (r, r.chromosome_location, r.chunk_relative_location, r.frames, r.strand, r.protein_id, "
                     "r.product, r.sequence_name))"
                     "(cds.incorporate_variants(v))")
        self.raises = {"EmptyLocationException": lambda i: And(_all_deleted(i), Not(_chunk_deleted(i))),
                       "NullSequenceException": _chunk_deleted}
        self.ensures = {
            "chromosome-location-covers-exactly-the-edited-image": lambda i, r: (
                Iff(covers_pos(r[1], i.q),
                                    Or(*[And(a <= i.q, i.q < b) for a, b in _image(i)]))),
            "well-formed": lambda i, r: _wf_blocks(r[1]),
            "strand-kept": lambda i, r: _same_enum(r[4], i.strand),
            "start-frame-kept": lambda i, r: _same_enum(_items(r[3])[0 if _plus(i) else -1], i.f0),
            "one-frame-per-block": lambda i, r: len(_items(r[3])) == len(blocks_of(r[1])),
            "frames-form-one-uninterrupted-reading-frame": lambda i, r: _frames_continuous(i, r),
            "identifiers-carried-over": lambda i, r: And(r[5] == "pid", r[6] == "prod", r[7] == "chr1"),
            "sits-on-the-alternative-sequence": lambda i, r: _alt_text_ok(i, r),
        }

    def inputs(self, S):
        starts, ends = block_lists(S, "cds", self.n, allow_adjacent=False)
        strand = strand_of(S, "strand")
        f0 = S.enum(FRAME, "frame")
        S.assume(Not(enum_name_is(f0, "NONE")))
        if S.mode == "sym":
            f0 = S.e.enum_concretize(f0)
        cp, cs, ce = chunk_parent(S)
        S.assume(And(cs <= starts[0], ends[-1] <= ce))
        v, vs, ve, alt = _variant_on(S, cp, cs, ce)
        # frames of the source CDS: generated by the library itself from the start frame (one reading frame)
        loc = S.new(COMPOUND, list(starts), list(ends), strand) if self.n > 1 else S.new(SINGLE, starts[0], ends[0], strand)
        cls = S.cls(CDS)
        if S.mode == "native":
            frames = cls.construct_frames_from_location(loc, f0)
        else:
            frames = S.e.call(S.e.getattr(cls, "construct_frames_from_location"), [loc, f0], {})
        cds = S.new(CDS, starts, ends, strand, frames, sequence_name="chr1", protein_id="pid", product="prod",
                    parent_or_seq_chunk_parent=cp)
        l = slen(alt)
        i = NS(cds=cds, v=v, vs=vs, ve=ve, l=l, d=l - (ve - vs), starts=starts, ends=ends, strand=strand,
               q=S.int("q"), cs=cs, ce=ce, f0=f0)
        S.assume(_placed_all(i))
        if self.place == "downstream of":
            S.assume(vs >= ends[-1])
        elif self.place == "upstream of":
            S.assume(ve <= starts[0])
        return i

    def samples(self, rng):
        d = sample_blocks(rng, "cds", self.n, lo=2, gap=(1, 2, 3), length=(1, 2, 4, 5))
        d["strand"] = rng.choice(["PLUS", "MINUS"])
        d["frame"] = rng.choice(["ZERO", "ONE", "TWO"])
        return _sample_common(rng, d, d["cds_starts"][0], d["cds_ends"][-1])

    def observe(self, r):
        from .c02_single import obs_loc
        from pyvc.check import default_observe as o
        return [obs_loc(r[1])[:3], [o(x) for x in _items(r[3])]]


def _plus(i):
    return (i.strand.members[i.strand.idx][0] if hasattr(i.strand, "members") else i.strand.name) == "PLUS"


def _items(x):
    if hasattr(x, "get") and hasattr(x, "length"):
        return [x.get(j) for j in range(x.length)]
    return list(x)


def _fval(f):
    return f.members[f.idx][1] if hasattr(f, "members") and isinstance(f.idx, int) else enum_value(f)


def _frames_continuous(i, r):
    """one uninterrupted reading frame that keeps the source's start frame: with blocks in 5'->3' order,
    frame_0 = f0 and frame_k = (bases before block k - f0) mod 3 (the model of c05_cds.ConstructFrames); the list is
    in + orientation."""
    bl = blocks_of(r[1])
    fr = _items(r[3])
    if len(fr) != len(bl):
        return False
    plus = (i.strand.members[i.strand.idx][0] if hasattr(i.strand, "members") else i.strand.name) == "PLUS"
    order = list(range(len(bl))) if plus else list(range(len(bl) - 1, -1, -1))
    parts = []
    pre = 0
    f0 = _fval(i.f0)
    for pos, k in enumerate(order):
        parts.append(_fval(fr[k]) == (f0 if pos == 0 else Mod(pre - f0, 3)))
        pre = pre + (bl[k][1] - bl[k][0])
    return And(*parts)


class CdsIncorporateCollection(Case):
    """CDS of two exons, a haplotype of TWO variants, one inside each exon (so their length changes may cancel):
    the new CDS covers the edited image of each exon and its frames are re-derived - one reading frame continuing the
    start frame over the NEW exon lengths.  Parentless objects (coordinates only).  Inputs on which the known
    finding F-C13-1 (variants applied left to right in reference coordinates) changes the outcome are excluded by
    the precondition: the second variant also lies inside the already shifted second exon."""
    props = ("C13",)
    summaries = (HOS,)
    func = CDS + ".incorporate_variants"
    shard_depth = 5
    name = "CDSInterval.incorporate_variants[2 blocks, haplotype of two variants, one inside each block]"
    call = "(lambda r: (r, r.chromosome_location, None, r.frames, r.strand))(cds.incorporate_variants(col))"
    ensures = {
        "covers-exactly-the-edited-image": lambda i, r: Iff(
            covers_pos(r[1], i.q), Or(And(i.starts[0] <= i.q, i.q < i.ends[0] + i.d1),
                                      And(i.starts[1] + i.d1 <= i.q, i.q < i.ends[1] + i.d1 + i.d2))),
        "frames-form-one-uninterrupted-reading-frame": lambda i, r: _frames_continuous(i, r),
        "strand-kept": lambda i, r: _same_enum(r[4], i.strand),
    }

    def inputs(self, S):
        starts, ends = block_lists(S, "cds", 2, allow_adjacent=False)
        strand = strand_of(S, "strand")
        f0 = S.enum(FRAME, "frame")
        S.assume(Not(enum_name_is(f0, "NONE")))
        if S.mode == "sym":
            f0 = S.e.enum_concretize(f0)
        vs1, ve1, vs2, ve2 = S.int("v1_start"), S.int("v1_end"), S.int("v2_start"), S.int("v2_end")
        alt1, alt2 = S.symstr("v1_alt", "ACGTN"), S.symstr("v2_alt", "ACGTN")
        d1, d2 = slen(alt1) - (ve1 - vs1), slen(alt2) - (ve2 - vs2)
        S.assume(And(starts[0] <= vs1, vs1 < ve1, ve1 <= ends[0], starts[1] <= vs2, vs2 < ve2, ve2 <= ends[1]))
        # something of each exon is left, and the exons stay apart (their images are neither empty nor merged)
        S.assume(And(ends[0] + d1 > starts[0], ends[1] + d2 > starts[1], ends[0] + d1 < starts[1] + d1))
        # domain of the known finding F-C13-1 excluded (see the class docstring)
        S.assume(And(starts[1] + d1 <= vs2, ve2 <= ends[1] + d1))
        v1 = S.new(VAR, vs1, ve1, alt1, "variant")
        v2 = S.new(VAR, vs2, ve2, alt2, "variant")
        col = S.new(VCOL, [v1, v2])
        loc = S.new(COMPOUND, list(starts), list(ends), strand)
        cls = S.cls(CDS)
        if S.mode == "native":
            frames = cls.construct_frames_from_location(loc, f0)
        else:
            frames = S.e.call(S.e.getattr(cls, "construct_frames_from_location"), [loc, f0], {})
        cds = S.new(CDS, starts, ends, strand, frames)
        return NS(cds=cds, col=col, starts=starts, ends=ends, strand=strand, f0=f0, d1=d1, d2=d2, q=S.int("q"))

    def samples(self, rng):
        a = rng.randint(0, 4)
        b = a + rng.randint(3, 7)
        c = b + rng.randint(3, 6)
        d = c + rng.randint(3, 7)
        v1s = rng.randint(a, b - 1)
        v1e = min(b, v1s + rng.randint(1, 2))
        v2s = rng.randint(c + 2, d - 1) if c + 2 <= d - 1 else c
        v2e = min(d, v2s + rng.randint(1, 2))
        return dict(cds_starts=[a, c], cds_ends=[b, d], strand=rng.choice(["PLUS", "MINUS"]),
                    frame=rng.choice(["ZERO", "ONE", "TWO"]), v1_start=v1s, v1_end=v1e,
                    v1_alt="".join(rng.choice("ACGT") for _ in range(rng.randint(0, 3))), v2_start=v2s, v2_end=v2e,
                    v2_alt="".join(rng.choice("ACGT") for _ in range(rng.randint(0, 3))), q=rng.randint(0, 30))

    def observe(self, r):
        from .c02_single import obs_loc
        from pyvc.check import default_observe as o
        return [obs_loc(r[1])[:3], [o(x) for x in _items(r[3])]]


class FeatureIncorporateCollection(Case):
    """FeatureInterval.incorporate_variants with a haplotype of TWO variants WITH sequence on a chunk, one upstream
    of the (single-block) feature and one downstream of it: the new feature is the block shifted by the FIRST variant's
    length change - also when the two length changes cancel (the alternative sequence then has the length of the
    reference, but the stretch between the variants has moved) - and its sequence is read from the alternative
    haplotype."""
    props = ("C13",)
    summaries = (HOS,)
    func = FEATURE + ".incorporate_variants"
    shard_depth = 5
    name = "FeatureInterval.incorporate_variants[1 block between the two variants of a haplotype with sequence]"
    call = ("(lambda r: (r.chunk_relative_location, len(r.get_spliced_sequence()), r.strand, r.feature_id))"
            "(f.incorporate_variants(col))")
    ensures = {
        "block-shifted-by-the-upstream-variant-only": lambda i, r: Iff(
            covers_pos(r[0], i.q), And(i.s + i.d1 - i.cs <= i.q, i.q < i.e + i.d1 - i.cs)),
        "sequence-length-kept": lambda i, r: r[1] == i.e - i.s,
        "strand-and-id-kept": lambda i, r: And(_same_enum(r[2], i.strand), r[3] == "fid"),
    }

    def inputs(self, S):
        starts, ends = block_lists(S, "f", 1)
        s, e = starts[0], ends[0]
        strand = strand_of(S, "strand")
        cp, cs, ce = chunk_parent(S)
        v1, vs1, ve1, alt1 = _variant_on(S, cp, cs, ce, "v1")
        v2, vs2, ve2, alt2 = _variant_on(S, cp, cs, ce, "v2")
        S.assume(And(cs <= vs1, ve1 <= s, e <= vs2, ve2 <= ce))
        col = S.new(VCOL, [v1, v2], parent_or_seq_chunk_parent=cp)
        f = S.new(FEATURE, starts, ends, strand, sequence_name="chr1", feature_id="fid", parent_or_seq_chunk_parent=cp)
        d1 = slen(alt1) - (ve1 - vs1)
        # domain of the known finding F-C13-1 excluded (the second variant is applied, in REFERENCE coordinates, to the
        # location already shifted by the first): the shifted block still lies upstream of the second variant
        S.assume(e + d1 <= vs2)
        return NS(f=f, col=col, s=s, e=e, d1=d1, cs=cs, strand=strand, q=S.int("q"))

    def samples(self, rng):
        cs = rng.randint(0, 5)
        vs1 = cs + rng.randint(0, 3)
        ve1 = vs1 + rng.randint(1, 3)
        s = ve1 + rng.randint(0, 3)
        e = s + rng.randint(2, 6)
        n1 = rng.randint(0, 4)
        vs2 = max(e, e + n1 - (ve1 - vs1)) + rng.randint(0, 3)
        ve2 = vs2 + rng.randint(1, 3)
        ce = ve2 + rng.randint(0, 3)
        # half of the samples: length changes that cancel
        n2 = max(0, (ve2 - vs2) - (n1 - (ve1 - vs1))) if rng.random() < 0.5 else rng.randint(0, 4)
        return dict(f_starts=[s], f_ends=[e], strand=rng.choice(["PLUS", "MINUS"]), chunk_start=cs, chunk_end=ce,
                    chunk_seq="".join(rng.choice("ACGT") for _ in range(ce - cs)), v1_start=vs1, v1_end=ve1,
                    v1_alt="".join(rng.choice("ACGT") for _ in range(n1)), v2_start=vs2, v2_end=ve2,
                    v2_alt="".join(rng.choice("ACGT") for _ in range(n2)), q=rng.randint(0, 30))

    def observe(self, r):
        from .c02_single import obs_loc
        from pyvc.check import default_observe as o
        return [obs_loc(r[0])[:3], o(r[1])]


class GeneIncorporate(Case):
    """GeneInterval.incorporate_variants: EVERY transcript of the new gene is the edited image of the corresponding
    source transcript - also a sibling the variant does not touch but that lies downstream of it (its coordinates
    move by the length change) - and the gene's span / identifiers follow.  Two single-exon isoforms, parentless
    objects (coordinates only), variant wholly inside or outside each exon."""
    props = ("C13", "C20")
    summaries = (HOS,)
    func = "gene.gene.GeneInterval.incorporate_variants"
    module = "gene.gene"
    shard_depth = 5
    name = "GeneInterval.incorporate_variants[two single-exon isoforms, one variant]"
    call = ("(lambda g: (g.start, g.end, g.gene_id, [t.chromosome_location for t in g.transcripts], "
            "[t.transcript_id for t in g.transcripts]))(gene.incorporate_variants(v))")
    raises = {"EmptyLocationException": lambda i: Or(*[a >= b for a, b in _image(i)])}
    ensures = {
        "every-isoform-is-the-edited-image": lambda i, r: And(len(r[3]) == 2, *[
            Iff(covers_pos(r[3][k], i.q), And(_image(i)[k][0] <= i.q, i.q < _image(i)[k][1])) for k in range(2)]),
        "span-follows": lambda i, r: And(r[0] == Min(_image(i)[0][0], _image(i)[1][0]),
                                         r[1] == Max(_image(i)[0][1], _image(i)[1][1])),
        "identifiers-kept": lambda i, r: And(r[2] == "g1", list(r[4]) == ["t0", "t1"]),
    }

    def inputs(self, S):
        strand = strand_of(S, "strand")
        starts, ends = [], []
        for k in range(2):
            s, e = S.int(f"s{k}"), S.int(f"e{k}")
            S.assume(And(0 <= s, s < e))
            starts.append(s)
            ends.append(e)
        vs, ve = S.int("v_start"), S.int("v_end")
        alt = S.symstr("v_alt", "ACGTN")
        S.assume(And(0 <= vs, vs < ve))
        v = S.new(VAR, vs, ve, alt, "variant")
        txs = [S.new(TRANSCRIPT, [starts[k]], [ends[k]], strand, transcript_id=f"t{k}") for k in range(2)]
        gene = S.new("gene.gene.GeneInterval", txs, gene_id="g1")
        l = slen(alt)
        i = NS(gene=gene, v=v, vs=vs, ve=ve, l=l, d=l - (ve - vs), starts=starts, ends=ends, strand=strand, q=S.int("q"))
        from .c13_variants import _placed_all as placed_each
        S.assume(placed_each(i))
        return i

    def samples(self, rng):
        d = dict(strand=rng.choice(["PLUS", "MINUS"]), q=rng.randint(0, 30))
        for k in range(2):
            s = rng.randint(0, 12)
            d[f"s{k}"], d[f"e{k}"] = s, s + rng.randint(1, 8)
        vs = rng.randint(0, 16)
        d.update(v_start=vs, v_end=vs + rng.randint(1, 3), v_alt="".join(rng.choice("ACGT") for _ in range(rng.randint(0, 4))))
        return d

    def observe(self, r):
        from .c02_single import obs_loc
        from pyvc.check import default_observe as o
        return [o(r[0]), o(r[1]), r[2], [obs_loc(x)[:2] for x in r[3]], list(r[4])]


class CollectionIncorporate(Case):
    """AnnotationCollection.incorporate_variants: EVERY child of the new collection is the edited image of the source
    child - also a gene / feature collection that the variant does not touch but that lies DOWNSTREAM of it (its
    coordinates move by the length change).  One gene and one feature collection (single-block children), one variant
    wholly outside or inside each child; parentless objects (coordinates only)."""
    props = ("C13", "C09")
    summaries = (HOS,)
    func = "gene.collections.AnnotationCollection.incorporate_variants"
    module = "gene.collections"
    shard_depth = 5
    name = "AnnotationCollection.incorporate_variants[gene + feature collection, one variant]"
    call = ("(lambda c: ([(g.gene_id, g.start, g.end) for g in c.genes], "
            "[(f.feature_collection_id, f.start, f.end) for f in c.feature_collections]))(col.incorporate_variants(v))")
    raises = {"EmptyLocationException": lambda i: Or(*[a >= b for a, b in _image(i)])}
    ensures = {
        "every-child-is-the-edited-image": lambda i, r: And(
            len(r[0]) == 1, len(r[1]) == 1, r[0][0][0] == "g0", r[1][0][0] == "fc",
            r[0][0][1] == _image(i)[0][0], r[0][0][2] == _image(i)[0][1],
            r[1][0][1] == _image(i)[1][0], r[1][0][2] == _image(i)[1][1]),
    }

    def inputs(self, S):
        strand = strand_of(S, "strand")
        starts, ends = [], []
        for k in range(2):
            s_, e_ = S.int(f"s{k}"), S.int(f"e{k}")
            S.assume(And(0 <= s_, s_ < e_))
            starts.append(s_)
            ends.append(e_)
        vs, ve = S.int("v_start"), S.int("v_end")
        alt = S.symstr("v_alt", "ACGTN")
        S.assume(And(0 <= vs, vs < ve))
        v = S.new(VAR, vs, ve, alt, "variant")
        tx = S.new(TRANSCRIPT, [starts[0]], [ends[0]], strand, transcript_id="t0")
        gene = S.new("gene.gene.GeneInterval", [tx], gene_id="g0")
        feat = S.new(FEATURE, [starts[1]], [ends[1]], strand, feature_id="f1")
        fc = S.new("gene.feature.FeatureIntervalCollection", [feat], feature_collection_id="fc")
        col = S.new("gene.collections.AnnotationCollection", genes=[gene], feature_collections=[fc])
        l = slen(alt)
        i = NS(col=col, v=v, vs=vs, ve=ve, l=l, d=l - (ve - vs), starts=starts, ends=ends, strand=strand)
        from .c13_variants import _placed_all as placed_each
        S.assume(placed_each(i))
        return i

    def samples(self, rng):
        d = dict(strand=rng.choice(["PLUS", "MINUS"]))
        for k in range(2):
            s_ = rng.randint(0, 14)
            d[f"s{k}"], d[f"e{k}"] = s_, s_ + rng.randint(1, 8)
        vs = rng.randint(0, 18)
        d.update(v_start=vs, v_end=vs + rng.randint(1, 3), v_alt="".join(rng.choice("ACGT") for _ in range(rng.randint(0, 4))))
        return d

    def observe(self, r):
        from pyvc.check import default_observe as o
        return [[[a, o(b), o(c)] for a, b, c in r[0]], [[a, o(b), o(c)] for a, b, c in r[1]]]


class HaplotypeMapping(Case):
    """AnnotationCollection built with TWO haplotypes (variant collections): every haplotype whose span shares a
    position with a gene gets its own entry in alternative_haplotype_mapping holding that gene with the haplotype
    applied to the SOURCE gene - a haplotype is never applied to a copy produced for another haplotype, and a
    haplotype that touches the gene is never missing.  One single-exon gene, one variant per haplotype (wholly inside
    the exon or wholly outside it), parentless objects."""
    props = ("C13", "C09")
    summaries = (HOS,)
    func = "gene.collections.AnnotationCollection._associate_intervals_with_variant_intervals"
    module = "gene.collections"
    shard_depth = 5
    name = "AnnotationCollection.alternative_haplotype_mapping[one gene, two haplotypes]"
    call = ("(lambda m: (vc1.guid in m, vc2.guid in m, [(g.gene_id, g.start, g.end) for g in m.get(vc1.guid, [])], "
            "[(g.gene_id, g.start, g.end) for g in m.get(vc2.guid, [])], len(m)))"
            "(AnnotationCollection(genes=[gene], variant_collections=[vc1, vc2]).alternative_haplotype_mapping)")
    ensures = {
        "a-haplotype-is-mapped-iff-it-touches-the-gene": lambda i, r: And(
            _b(r[0], _touch(i, 0)), _b(r[1], _touch(i, 1)), r[4] == (1 if r[0] else 0) + (1 if r[1] else 0)),
        "each-entry-is-the-source-gene-with-that-haplotype-applied": lambda i, r: And(*[
            And(len(r[2 + k]) == 1, r[2 + k][0][0] == "g1", r[2 + k][0][1] == i.s,
                r[2 + k][0][2] == i.e + i.d[k]) if r[k] else len(r[2 + k]) == 0 for k in range(2)]),
    }

    def inputs(self, S):
        strand = strand_of(S, "strand")
        s, e = S.int("s"), S.int("e")
        S.assume(And(0 <= s, s < e))
        tx = S.new(TRANSCRIPT, [s], [e], strand, transcript_id="t0")
        gene = S.new("gene.gene.GeneInterval", [tx], gene_id="g1")
        vcs, vs_, ve_, d = [], [], [], []
        for k in range(2):
            vs, ve = S.int(f"v{k}_start"), S.int(f"v{k}_end")
            alt = S.symstr(f"v{k}_alt", "ACGTN")
            # wholly inside the exon (not touching its ends) or wholly outside it
            S.assume(And(0 <= vs, vs < ve, Or(And(s < vs, ve < e), ve <= s, vs >= e)))
            v = S.new(VAR, vs, ve, alt, "variant")
            vcs.append(S.new("gene.variants.VariantIntervalCollection", [v], variant_collection_id=f"hap{k}"))
            vs_.append(vs)
            ve_.append(ve)
            d.append(slen(alt) - (ve - vs))
        return NS(gene=gene, vc1=vcs[0], vc2=vcs[1], s=s, e=e, vs=vs_, ve=ve_, d=d,
                  AnnotationCollection=S.cls("gene.collections.AnnotationCollection"))

    def samples(self, rng):
        s = rng.randint(2, 8)
        e = s + rng.randint(4, 10)
        d = dict(strand=rng.choice(["PLUS", "MINUS"]), s=s, e=e)
        for k in range(2):
            if rng.random() < 0.7:
                vs = rng.randint(s + 1, e - 2)
                ve = rng.randint(vs + 1, e - 1)
            else:
                vs = e + rng.randint(0, 3)
                ve = vs + rng.randint(1, 2)
            d.update({f"v{k}_start": vs, f"v{k}_end": ve,
                      f"v{k}_alt": "".join(rng.choice("ACGT") for _ in range(rng.randint(0, 4)))})
        return d

    def observe(self, r):
        from pyvc.check import default_observe as o
        return [bool(r[0]), bool(r[1]), [[a, o(b), o(c)] for a, b, c in r[2]], [[a, o(b), o(c)] for a, b, c in r[3]], r[4]]


def _touch(i, k):
    return And(i.s < i.vs[k], i.ve[k] < i.e)  # (a variant outside the exon shares no position with the gene)


def _b(flag, cond):
    """the concrete flag of this path agrees with the condition"""
    return cond if flag else Not(cond)


class TranscriptIncorporate(Case):
    props = ("C13",)
    summaries = (HOS,)  # callee contract proved by c02_single.OverlapCore
    shard_depth = 7
    func = TRANSCRIPT + ".incorporate_variants"

    def __init__(self, n, tier="quick"):
        self.n, self.tier = n, tier
        self.name = f"TranscriptInterval.incorporate_variants[{n} exons, coding, variant with sequence on a chunk]"
        if n > 1:
            self.allow_uncovered = ("raise:EmptyLocationException", "raise:NullSequenceException")
        self.call = ("(lambda r: (r, r.chromosome_location, r.chunk_relative_location, r.cds, "
                     "r.cds.chromosome_location if r.cds is not None else None, r.strand, r.transcript_id, "
                     "r.transcript_symbol, r.protein_id, r.product, r.sequence_name, r.is_primary_tx))"
                     "(tx.incorporate_variants(v))")
        # the CDS is incorporated first: a variant deleting the whole CDS refuses the transcript as well
        self.raises = {"EmptyLocationException": lambda i: And(Or(
            _all_deleted(i), _all_deleted(i, i.cds_s, i.cds_e)), Not(_chunk_deleted(i))),
            "NullSequenceException": _chunk_deleted}
        self.ensures = {
            "exons-cover-exactly-the-edited-image": lambda i, r: (
                Iff(covers_pos(r[1], i.q),
                                    Or(*[And(a <= i.q, i.q < b) for a, b in _image(i)]))),
            "cds-covers-exactly-the-edited-image-of-the-cds": lambda i, r: (
                Iff(covers_pos(r[4], i.q),
                    Or(*[And(a <= i.q, i.q < b) for a, b in _image(i, i.cds_s, i.cds_e)]))),
            "still-coding": lambda i, r: r[3] is not None,
            "strand-kept": lambda i, r: _same_enum(r[5], i.strand),
            "identifiers-and-flags-carried-over": lambda i, r: And(
                r[6] == "tid", r[7] == "tsym", r[8] == "pid", r[9] == "prod", r[10] == "chr1", r[11] == True),  # noqa: E712
            "sits-on-the-alternative-sequence": lambda i, r: _alt_text_ok(i, r),
        }

    def inputs(self, S):
        starts, ends = block_lists(S, "tx", self.n, allow_adjacent=False)
        strand = strand_of(S, "strand")
        cds_s, cds_e, c0, c1 = cds_in_exons(S, starts, ends)
        zero = S.enum_const(FRAME, "ZERO")
        cp, cs, ce = chunk_parent(S)
        S.assume(And(cs <= starts[0], ends[-1] <= ce))
        v, vs, ve, alt = _variant_on(S, cp, cs, ce)
        loc = S.new(COMPOUND, list(cds_s), list(cds_e), strand) if self.n > 1 else S.new(SINGLE, cds_s[0], cds_e[0], strand)
        cls = S.cls(CDS)
        if S.mode == "native":
            frames = cls.construct_frames_from_location(loc, zero)
        else:
            frames = S.e.call(S.e.getattr(cls, "construct_frames_from_location"), [loc, zero], {})
        tx = S.new(TRANSCRIPT, starts, ends, strand, cds_starts=cds_s, cds_ends=cds_e, cds_frames=frames,
                   sequence_name="chr1", transcript_id="tid", transcript_symbol="tsym", protein_id="pid", product="prod",
                   is_primary_tx=True, parent_or_seq_chunk_parent=cp)
        l = slen(alt)
        i = NS(tx=tx, v=v, vs=vs, ve=ve, l=l, d=l - (ve - vs), starts=starts, ends=ends, cds_s=cds_s, cds_e=cds_e,
               strand=strand, q=S.int("q"), cs=cs, ce=ce)
        S.assume(And(_placed_all(i), _placed_cds(i)))  # wholly inside / outside the exons AND the CDS blocks
        return i

    def samples(self, rng):
        d = sample_blocks(rng, "tx", self.n, lo=2, gap=(1, 2, 3), length=(2, 3, 5))
        d["strand"] = rng.choice(["PLUS", "MINUS"])
        sample_cds(rng, d)
        return _sample_common(rng, d, d["tx_starts"][0], d["tx_ends"][-1])

    def observe(self, r):
        from .c02_single import obs_loc
        return [obs_loc(r[1])[:3], obs_loc(r[4])[:3]]


def _placed_cds(i):
    inside = Or(*[And(s <= i.vs, i.ve <= e) for s, e in zip(i.cds_s, i.cds_e)])
    outside = And(*[Or(i.ve <= s, i.vs >= e) for s, e in zip(i.cds_s, i.cds_e)])
    return Or(inside, outside)


CASES = [FeatureIncorporate(1), FeatureIncorporate(2), CdsIncorporate(1),
         CdsIncorporate(2, place="downstream of"), CdsIncorporate(2, place="upstream of", tier="thorough"),
         CdsIncorporate(2, tier="thorough"), TranscriptIncorporate(1), TranscriptIncorporate(2, tier="thorough"),
         CdsIncorporateCollection(), FeatureIncorporateCollection(), GeneIncorporate(), HaplotypeMapping(), CollectionIncorporate()]

CANARIES = [
    dict(name="incorporate_variants: frames rebuilt from the first LISTED frame (F-C13-4)", props=("C13",),
         file="inscripta/biocantor/gene/cds.py",
         old="new_frames = CDSInterval.construct_frames_from_location(new_loc, next(self._frame_iter()))",
         new="new_frames = CDSInterval.construct_frames_from_location(new_loc, self.frames[0])",
         case="CDSInterval.incorporate_variants[2 blocks, variant with sequence on a chunk, variant downstream of the CDS]",
         expect="post:frames-form-one-uninterrupted-reading-frame"),
]
